// C06 - Vineyard swaps and cell removals leave the matrix as if rebuilt from scratch.
//
// E1 explicit-state exploration of the REAL Gudhi::persistence_matrix::Matrix (RU and chain matrices with vine
// updates) over a small cell universe.  A state is the operation history that reaches it, replayed on a fresh
// matrix.  After every history the complete observable state is compared with an oracle that depends on the current
// filtration order only (textbook column reduction over Z_2 in engine/ref_complex.hpp + explicit boundary algebra
// written here).  One configuration group per binary (-DVF_CFG=k), one configuration per process (--cfg name).
//
// Documented preconditions used by the enabledness predicate (nothing else is assumed):
//  * insert_boundary: faces already present; boundary given by the row indices the documentation prescribes
//    (chain matrices: the IDs of the faces; RU matrices: "updated IDs", i.e. the ID attached to the face's position);
//    the ID-less overload only while IDs equal positions (chain) / no removal happened (RU with identifier indexing)
//  * vine_swap: the two cells are consecutive and not face/coface of each other; first argument = earlier cell
//  * vine_swap_with_z_eq_1_case: additionally the swap is "non trivial": the entry the plain vine_swap tests is non
//    zero (read from the object through is_zero_entry, as a caller has to)
//  * remove_maximal_cell: the cell is maximal; remove_last: matrix not empty
//  * chain matrices without stored barcode get birth/death comparators answering from the reference barcode of the
//    order before the swap (arguments are column indices, as Zigzag_persistence supplies them)
#include "harness.hpp"
#include "explorer.hpp"
#include "ref_complex.hpp"

#include <gudhi/Matrix.h>
#include <gudhi/persistence_matrix_options.h>

#include <array>
#include <functional>
#include <memory>

namespace pm = Gudhi::persistence_matrix;
using pm::Column_indexation_types;
using pm::Column_types;

enum { CONT = 0, POSI = 1, IDEN = 2 };

// ---------------------------------------------------------------------------------------------------------------------
// configurations
// ---------------------------------------------------------------------------------------------------------------------
template <bool RU_, int IDX_, bool BAR_, bool MAP_, Column_types CT_, int RA_>
struct Opt {
  using Field_coeff_operators = Gudhi::persistence_fields::Zp_field_operators<>;
  using Index = unsigned int;
  using Dimension = int;
  static const bool is_z2 = true;
  static const Column_types column_type = CT_;
  static const Column_indexation_types column_indexation_type =
      IDX_ == CONT ? Column_indexation_types::CONTAINER
                   : (IDX_ == POSI ? Column_indexation_types::POSITION : Column_indexation_types::IDENTIFIER);
  static const bool is_of_boundary_type = RU_;
  static const bool has_column_compression = false;
  static const bool has_column_and_row_swaps = false;
  static const bool has_vine_update = true;
  static const bool can_retrieve_representative_cycles = false;
  static const bool has_row_access = RA_ > 0;
  static const bool has_intrusive_rows = RA_ == 2;
  static const bool has_removable_rows = RA_ == 2;
  static const bool has_removable_columns = RU_ ? true : MAP_;  // as in the repository's own option sets
  static const bool has_map_column_container = MAP_;
  static const bool has_matrix_maximal_dimension_access = true;
  static const bool has_column_pairings = BAR_;
};

template <bool RU_, int IDX_, bool BAR_, bool MAP_, Column_types CT_, int RA_>
struct Cfg {
  using O = Opt<RU_, IDX_, BAR_, MAP_, CT_, RA_>;
  static constexpr bool RU = RU_, BAR = BAR_, MAP = MAP_;
  static constexpr int IDX = IDX_, RA = RA_;
  static constexpr Column_types CT = CT_;
  static std::string name() {
    static const char* ct[] = {"list", "set", "heap", "vector", "nvector", "svector", "uset", "ilist", "iset"};
    std::string s = RU ? "ru" : "chain";
    s += IDX == CONT ? ".cont" : (IDX == POSI ? ".pos" : ".id");
    s += BAR ? ".bar" : ".nobar";
    s += MAP ? ".map" : ".vec";
    s += std::string(".") + ct[(int)CT];
    if (RA) s += ".ra" + std::to_string(RA);
    return s;
  }
  static std::string family() {  // what a defect is attributed to (class strings do not depend on containers)
    std::string s = RU ? "ru" : "chain";
    s += IDX == CONT ? ".cont" : (IDX == POSI ? ".pos" : ".id");
    s += BAR ? ".bar" : ".nobar";
    return s;
  }
};

// ---------------------------------------------------------------------------------------------------------------------
// universe
// ---------------------------------------------------------------------------------------------------------------------
struct Universe {
  std::string name;
  std::vector<ref::Simplex> cells;
  std::vector<std::vector<int>> facets;      // indices of the codimension-1 faces
  std::vector<std::vector<char>> face_of;    // face_of[a][b]: a is a proper face of b
  int dim(int c) const { return (int)cells[c].size() - 1; }
  static Universe make(const std::string& n) {
    std::vector<ref::Simplex> maxs;
    if (n == "edge") maxs = {{0, 1}};
    else if (n == "tri") maxs = {{0, 1, 2}};
    else if (n == "path") maxs = {{0, 1}, {1, 2}, {2, 3}};
    else if (n == "cyc4") maxs = {{0, 1}, {1, 2}, {2, 3}, {0, 3}};
    else if (n == "tri1") maxs = {{0, 1, 2}, {2, 3}};
    else if (n == "bow") maxs = {{0, 1, 2}, {1, 2, 3}};
    else if (n == "tet") maxs = {{0, 1, 2}, {0, 1, 3}, {0, 2, 3}, {1, 2, 3}};
    else { fprintf(stderr, "unknown universe %s\n", n.c_str()); exit(2); }
    Universe u;
    u.name = n;
    std::set<ref::Simplex> all;
    for (auto& m : maxs) for (auto& s : ref::nonempty_subsets(m)) all.insert(s);
    u.cells.assign(all.begin(), all.end());
    std::sort(u.cells.begin(), u.cells.end(), [](const ref::Simplex& a, const ref::Simplex& b) {
      return a.size() != b.size() ? a.size() < b.size() : a < b;
    });
    size_t n_ = u.cells.size();
    u.facets.resize(n_);
    u.face_of.assign(n_, std::vector<char>(n_, 0));
    for (size_t b = 0; b < n_; ++b) {
      for (auto& f : ref::facets_of(u.cells[b]))
        u.facets[b].push_back((int)(std::find(u.cells.begin(), u.cells.end(), f) - u.cells.begin()));
      for (size_t a = 0; a < n_; ++a)
        if (u.cells[a].size() < u.cells[b].size() && ref::subset(u.cells[a], u.cells[b])) u.face_of[a][b] = 1;
    }
    return u;
  }
};

// ---------------------------------------------------------------------------------------------------------------------
// operations
// ---------------------------------------------------------------------------------------------------------------------
enum OpKind { INS = 0, SWAP = 1, SWAPZ = 2, REMLAST = 3, REMMAX = 4, REMMAX2 = 5, OBS = 6 };
static const char* op_name[] = {"insert_boundary", "vine_swap", "vine_swap_with_z_eq_1_case", "remove_last",
                                "remove_maximal_cell", "remove_maximal_cell_with_list", "read_columns"};
inline int enc(OpKind k, int a) { return (int)k * 100 + a; }
inline OpKind kind_of(int op) { return (OpKind)(op / 100); }
inline int arg_of(int op) { return op % 100; }

using Bars = std::vector<ref::Pair>;
static Bars refbars(const Universe& U, const std::vector<int>& order) {
  std::vector<ref::Simplex> s;
  for (int c : order) s.push_back(U.cells[c]);
  return ref::persistence(ref::cells_of(s), 2);
}
static std::string bars_str(const Bars& b) {
  std::ostringstream o;
  for (auto& p : b) o << "(" << p.dim << ":" << p.birth << "," << p.death << ")";
  return o.str();
}
static Bars swapmap(Bars b, int i) {
  auto f = [&](int& x) { if (x == i) x = i + 1; else if (x == i + 1) x = i; };
  for (auto& p : b) { f(p.birth); f(p.death); }
  std::sort(b.begin(), b.end());
  return b;
}

struct Model {
  std::vector<int> order;   // cell of the universe at each position
  std::vector<long> cid;    // per universe cell: the identifier that follows the cell (-1: absent)
  std::vector<long> rid;    // RU matrices: identifier attached to each position ("updated IDs" of the rows)
  long inserts = 0;         // insertions so far
  long maxid = 0;           // largest identifier handed out so far (explicit policy starts at 1)
  bool removed = false;
  int pos_of(int cell) const {
    for (size_t p = 0; p < order.size(); ++p) if (order[p] == cell) return (int)p;
    return -1;
  }
  int cell_with_cid(long id) const {
    for (size_t c = 0; c < cid.size(); ++c) if (cid[c] == id) return (int)c;
    return -1;
  }
  int pos_with_rid(long id) const {
    for (size_t p = 0; p < rid.size(); ++p) if (rid[p] == id) return (int)p;
    return -1;
  }
};

// typed token dump: identifiers and container indices are rank-normalised before they enter the key
struct Dump {
  std::vector<std::pair<char, long>> t;
  void s(char c) { t.push_back({'S', c}); }
  void I(long v) { t.push_back({'I', v}); }
  void Mx(long v) { t.push_back({'M', v}); }
  void P(long v) { t.push_back({'P', v}); }
  std::string str(bool norm_i, bool norm_m) const {
    std::set<long> is, ms;
    for (auto& x : t) { if (x.first == 'I') is.insert(x.second); if (x.first == 'M') ms.insert(x.second); }
    auto rank = [](const std::set<long>& s, long v) { return (long)std::distance(s.begin(), s.find(v)); };
    std::string o;
    const long NUL = (long)(unsigned int)-1;
    for (auto& x : t) {
      if (x.first == 'S') { o += (char)x.second; continue; }
      if (x.second == NUL || x.second == -1) { o += "n,"; continue; }
      long v = x.second;
      if (x.first == 'I' && norm_i) v = rank(is, v);
      if (x.first == 'M' && norm_m) v = rank(ms, v);
      o += std::to_string(v);
      o += ',';
    }
    return o;
  }
};

static bool g_silent = false;   // replays done only to compute enabledness do not report
static long g_bad = 0;          // problems seen by the current Exec
static void report(const std::string& cls, const std::string& detail) {
  ++g_bad;
  if (!g_silent) vf::mismatch(cls, detail);
}

// Runs f(0..n-1) in a forked child that stays silent; result[i] = 'k' if f(i) returned, '!' if the process died inside
// f(i) (sanitizer report, signal, watchdog).  errs gets one line per death (first diagnostic the child printed).
template <class Fn>
static std::string probe(size_t n, Fn&& f, std::vector<std::string>& errs) {
  std::string result;
  size_t next = 0;
  std::string ef = "build/scratch/c06_" + std::to_string((long)getpid()) + ".err";
  while (next < n) {
    fflush(stdout);
    int fds[2];
    if (pipe(fds) != 0) break;
    pid_t pid = fork();
    if (pid == 0) {
      vf::g_probe_child = true;
      g_silent = true;
      close(fds[0]);
      int fd = open(ef.c_str(), O_WRONLY | O_CREAT | O_TRUNC, 0644);
      if (fd >= 0) dup2(fd, 2);
      for (size_t i = next; i < n; ++i) {
        alarm(20);
        char c = 'k';
        try { f(i); } catch (...) { c = 'E'; }
        if (write(fds[1], &c, 1) != 1) _exit(78);
      }
      _exit(0);
    }
    close(fds[1]);
    char c;
    size_t got = 0;
    while (read(fds[0], &c, 1) == 1) { result += c; ++got; }
    close(fds[0]);
    int st = 0;
    waitpid(pid, &st, 0);
    next += got;
    if (next < n) {
      result += '!';
      ++next;
      std::string line = "process died";
      if (FILE* fh = fopen(ef.c_str(), "r")) {
        char buf[600];
        while (fgets(buf, sizeof buf, fh)) {
          std::string l = buf;
          size_t a = l.find("runtime error:"), b = l.find("ERROR: AddressSanitizer");
          if (a != std::string::npos) { line = l.substr(a); break; }
          if (b != std::string::npos) { line = l.substr(b); break; }
        }
        fclose(fh);
      }
      while (!line.empty() && (line.back() == '\n' || line.back() == ' ')) line.pop_back();
      // addresses differ from run to run
      for (size_t i = 0; i + 1 < line.size(); ++i)
        if (line[i] == '0' && line[i + 1] == 'x') { size_t j = i + 2; while (j < line.size() && isxdigit((unsigned char)line[j])) ++j; line.replace(i, j - i, "ADDR"); }
      if (line.size() > 200) line.resize(200);
      errs.push_back(line);
    }
  }
  unlink(ef.c_str());
  return result;
}

// ---------------------------------------------------------------------------------------------------------------------
// executor: the real matrix + the model, driven together
// ---------------------------------------------------------------------------------------------------------------------
template <class C>
struct Exec {
  using O = typename C::O;
  using M = pm::Matrix<O>;
  using Index = unsigned int;
  static constexpr bool RU = C::RU, BAR = C::BAR, MAP = C::MAP;
  static constexpr int IDX = C::IDX;
  static constexpr bool OVERLAY = (RU && IDX == IDEN) || (!RU && IDX != CONT);
  static constexpr bool BOOL_SWAP = (RU && IDX != IDEN) || (!RU && IDX == POSI);
  static constexpr bool CAN_REMLAST = RU || MAP;
  static constexpr bool CAN_REMMAX = RU || (MAP && BAR);
  static constexpr bool CAN_REMMAX2 = !RU && MAP && IDX != POSI;
  static constexpr unsigned int NUL = (unsigned int)-1;

  const Universe& U;
  bool explicit_ids;
  Model md;
  std::unique_ptr<M> m;
  Bars cmp_bars;                 // reference barcode of the order before the running operation (for the comparators)
  std::vector<int> cmp_order;
  std::string fam;
  int key_level = 1;             // 0 semantic, 1 + summaries of lazy/permutation state, 2 every container verbatim
  std::string last = "start";    // kind of the last operation (part of the class strings)
  bool dead = false;             // an exception escaped the library: the object is not used any further

  Exec(const Universe& u, bool expl) : U(u), explicit_ids(expl) {
    fam = C::family() + (expl ? "+ids" : "");
    md.cid.assign(U.cells.size(), -1);
    if constexpr (!RU && !BAR) {
      std::function<bool(Index, Index)> bc = [this](Index a, Index b) { return ev(a, true) < ev(b, true); };
      std::function<bool(Index, Index)> dc = [this](Index a, Index b) { return ev(a, false) < ev(b, false); };
      m.reset(new M(bc, dc));
    } else {
      m.reset(new M());
    }
  }

  auto& core() {
    if constexpr (OVERLAY) return m->matrix_.matrix_;
    else return m->matrix_;
  }

  // birth (or death) position of the bar of the cell whose chain is stored in column `col` (chain, no barcode)
  long ev(Index col, bool birth) {
    vf::stats().add(birth ? "cmp.birth_calls" : "cmp.death_calls");
    if constexpr (!RU) {
      long id = core().get_pivot(col);
      int cell = md.cell_with_cid(id);
      int p = -1;
      for (size_t q = 0; q < cmp_order.size(); ++q) if (cmp_order[q] == cell) p = (int)q;
      for (auto& b : cmp_bars)
        if (b.birth == p || b.death == p) return birth ? b.birth : (b.death < 0 ? 1000000 : b.death);
    }
    return 2000000;
  }

  int n() const { return (int)md.order.size(); }
  std::string mstate() const {
    std::ostringstream o;
    o << "order=";
    for (int c : md.order) o << ref::str(U.cells[c]);
    return o.str();
  }
  std::string cls(const std::string& observer) const { return "C06:" + observer + ":" + fam + ":after_" + last; }
  void bad(const std::string& observer, const std::string& detail) {
    report(cls(observer), C::name() + " " + detail + " " + mstate());
  }

  // ---- enabledness (model only, except the z entry) ----
  bool ins_enabled(int c) const {
    if (md.cid[c] >= 0 || md.pos_of(c) >= 0) return false;
    for (int f : U.facets[c]) if (md.pos_of(f) < 0) return false;
    if (explicit_ids) return true;
    if constexpr (RU) {
      if (IDX == IDEN && md.removed) return false;  // "n-th insertion gets ID n" and the overlay's counter differ
      return true;
    } else {
      for (size_t p = 0; p < md.order.size(); ++p) if (md.cid[md.order[p]] != (long)p) return false;
      return true;
    }
  }
  bool swap_enabled(int i) const {
    return i + 1 < n() && !U.face_of[md.order[i]][md.order[i + 1]];
  }
  bool is_maximal(int c) const {
    for (int d : md.order) if (U.face_of[c][d]) return false;
    return true;
  }
  // the entry vine_swap looks at to decide whether the swap is trivial
  bool z_nonzero(int i) {
    int a = md.order[i], b = md.order[i + 1];
    if (U.dim(a) != U.dim(b)) return false;
    // RU matrices with caller-chosen IDs: which row index designates a row of U is not documented, so the entry is
    // not read and the z_eq_1 variants are not called
    if (RU && explicit_ids) return false;
    if constexpr (RU) {
      if constexpr (IDX != IDEN) return !m->is_zero_entry((Index)i, (Index)md.rid[i + 1], false);
      else return !core().mirrorMatrixU_.is_zero_entry((Index)i, (Index)md.rid[i + 1]);
    } else {
      if constexpr (IDX == CONT)
        return !m->is_zero_entry(m->get_column_with_pivot((Index)md.cid[b]), (Index)md.cid[a]);
      else if constexpr (IDX == POSI) return !m->is_zero_entry((Index)(i + 1), (Index)md.cid[a]);
      else return !m->is_zero_entry((Index)md.cid[b], (Index)md.cid[a]);
    }
  }
  // Footprints of the recorded open findings whose transitions can kill the process instead of throwing or returning
  // a wrong result.  Such a transition is first executed in a forked probe; if the probe dies, the death gets a class
  // of its own (C06:crash:<family>:...) and the transition is not executed in the explorer.  Any other death stays a
  // generic CRASH:* record of the harness.
  //  * chain matrix without stored barcode, caller-chosen IDs: insert_boundary while the IDs of the present cells do
  //    not increase along the filtration (the reduction orders cells by ID)
  //  * RU matrix, caller-chosen IDs different from positions: every operation that performs vine swaps
  bool fatal_footprint(int op) const {
    if (!explicit_ids) return false;
    OpKind k = kind_of(op);
    if (RU) return k == SWAP || k == SWAPZ || k == REMMAX;
    if (BAR || k != INS) return false;
    for (size_t p = 1; p < md.order.size(); ++p)
      if (md.cid[md.order[p - 1]] > md.cid[md.order[p]]) return true;
    return false;
  }
  std::vector<int> enabled_ops() {
    std::vector<int> r;
    if (dead) return r;
    for (size_t c = 0; c < U.cells.size(); ++c) if (ins_enabled((int)c)) r.push_back(enc(INS, (int)c));
    for (int i = 0; i + 1 < n(); ++i) if (swap_enabled(i)) r.push_back(enc(SWAP, i));
    for (int i = 0; i + 1 < n(); ++i) if (swap_enabled(i) && z_nonzero(i)) r.push_back(enc(SWAPZ, i));
    if (CAN_REMLAST && n() > 0) r.push_back(enc(REMLAST, 0));
    if (CAN_REMMAX) for (int c : md.order) if (is_maximal(c)) r.push_back(enc(REMMAX, c));
    if (CAN_REMMAX2) for (int c : md.order) if (is_maximal(c)) r.push_back(enc(REMMAX2, c));
    if (RU && n() > 0) r.push_back(enc(OBS, 0));
    std::sort(r.begin(), r.end());
    return r;
  }

  // ---- operations ----
  void apply(int op, bool check) {
    if (dead) return;
    OpKind k = kind_of(op);
    int a = arg_of(op);
    last = op_name[k];
    cmp_order = md.order;
    if (!RU && !BAR) cmp_bars = refbars(U, md.order);
    try {
      switch (k) {
        case INS: do_insert(a); break;
        case SWAP: do_swap(a, false, check); break;
        case SWAPZ: do_swap(a, true, check); break;
        case REMLAST: do_remove_last(); break;
        case REMMAX: do_remove_max(a, false); break;
        case REMMAX2: do_remove_max(a, true); break;
        case OBS: read_columns(); break;
      }
    } catch (const std::exception& e) {
      dead = true;
      std::string w = e.what();
      if (w.size() > 60) w.resize(60);
      bad("exception", std::string("library threw: ") + w);
    }
  }

  void do_insert(int c) {
    std::vector<Index> b;
    int dim = U.dim(c);
    if constexpr (RU) { for (int f : U.facets[c]) b.push_back((Index)md.rid[md.pos_of(f)]); }
    else { for (int f : U.facets[c]) b.push_back((Index)md.cid[f]); }
    std::sort(b.begin(), b.end());
    long id;
    if (explicit_ids) {
      id = md.maxid + ((md.inserts % 3 == 1) ? 2 : 1);
      m->insert_boundary((Index)id, b, dim);
    } else {
      if constexpr (RU) id = n();        // position (R's own counter; the identifier overlay counts the same way)
      else id = md.inserts;              // "the n-th insertion gets ID n"
      if (c % 2) m->insert_boundary(b, dim);
      else m->insert_boundary(b);        // simplicial: the dimension may be omitted
    }
    md.maxid = std::max(md.maxid, id);
    md.inserts++;
    md.order.push_back(c);
    md.cid[c] = id;
    if (RU) md.rid.push_back(id);
  }

  void do_swap(int i, bool z, bool check) {
    int a = md.order[i], b = md.order[i + 1];
    Bars old = refbars(U, md.order);
    bool is_bool = BOOL_SWAP;
    bool rb = false;
    long ri = -1, x1 = -1, x2 = -1;
    if constexpr (BOOL_SWAP) {
      rb = z ? m->vine_swap_with_z_eq_1_case((Index)i) : m->vine_swap((Index)i);
    } else if constexpr (!RU && IDX == CONT) {
      x1 = m->get_column_with_pivot((Index)md.cid[a]);
      x2 = m->get_column_with_pivot((Index)md.cid[b]);
      ri = z ? m->vine_swap_with_z_eq_1_case((Index)x1, (Index)x2) : m->vine_swap((Index)x1, (Index)x2);
    } else {
      x1 = md.cid[a];
      x2 = md.cid[b];
      ri = z ? m->vine_swap_with_z_eq_1_case((Index)x1, (Index)x2) : m->vine_swap((Index)x1, (Index)x2);
    }
    std::swap(md.order[i], md.order[i + 1]);
    if (!check) return;
    Bars now = refbars(U, md.order);
    bool kept = now == swapmap(old, i), exch = now == old;
    if (!kept && !exch) {  // cannot happen (vineyard theorem); guards the oracle itself
      report("C06:oracle:transposition_neither_kept_nor_exchanged", bars_str(old) + " -> " + bars_str(now));
      return;
    }
    const bool ambiguous = kept && exch;  // e.g. two essential classes of one dimension: either answer is truthful
    // non-vacuity: which case of the analysis this transition falls in
    auto role = [&](int p) {
      for (auto& q : old) {
        if (q.birth == p) return q.death < 0 ? "E" : "P";
        if (q.death == p) return "N";
      }
      return "?";
    };
    vf::stats().add(std::string("swapcase.") + role(i) + role(i + 1) + (U.dim(a) == U.dim(b) ? ".samedim" : ".diffdim") +
                    (ambiguous ? ".either" : (kept ? ".kept" : ".exchanged")) + (z ? ".z" : ""));
    std::string what = std::string(z ? "vine_swap_with_z_eq_1_case" : "vine_swap") + "(" + std::to_string(i) + ")";
    if (ambiguous) {
      if (!is_bool && ri != x1 && ri != x2)
        bad("return_value", what + " args(" + std::to_string(x1) + "," + std::to_string(x2) + ") returned " +
                                std::to_string(ri) + " which is neither argument");
    } else if (is_bool) {
      if (rb != kept)
        bad("return_value", what + " returned " + (rb ? "true" : "false") + " but the bars were " +
                                (kept ? "kept by the cells (barcode = old one with the two positions exchanged)"
                                      : "exchanged (barcode unchanged)") +
                                " old=" + bars_str(old) + " new=" + bars_str(now));
    } else {
      // index-returning overloads: first argument = "bars kept", second = "bars exchanged"; for chain matrices with
      // container indexing the documentation is checked as written: the returned column holds the cell now at the
      // larger position (the one that was first)
      if (ri != x1 && ri != x2)
        bad("return_value", what + " args(" + std::to_string(x1) + "," + std::to_string(x2) + ") returned " +
                                std::to_string(ri) + " which is neither argument");
      else if ((ri == x1) != kept)
        bad("return_value", what + " args(" + std::to_string(x1) + "," + std::to_string(x2) + ") returned " +
                                std::to_string(ri) + " but the bars were " + (kept ? "kept" : "exchanged") +
                                " old=" + bars_str(old) + " new=" + bars_str(now));
      if (RU && IDX == IDEN && ri == x2) vf::stats().add("note.ru_id_swap_returned_second_id_now_at_smaller_position");
    }
    if constexpr (!RU && IDX == CONT) {
      if (ri == x1 || ri == x2) {
        long pv = m->get_pivot((Index)ri);
        if (pv != md.cid[a])
          bad("return_value_max_position", what + " returned column " + std::to_string(ri) + " whose pivot " +
                                               std::to_string(pv) + " is not the cell now at position " +
                                               std::to_string(i + 1) + " (id " + std::to_string(md.cid[a]) + ")");
      }
    }
  }

  void model_remove(int c) {
    int p = md.pos_of(c);
    md.order.erase(md.order.begin() + p);
    md.cid[c] = -1;
    if (RU) md.rid.pop_back();   // identifiers of RU rows stay with the positions
    md.removed = true;
  }
  void do_remove_last() {
    if constexpr (CAN_REMLAST) m->remove_last();
    model_remove(md.order.back());
  }
  void do_remove_max(int c, bool with_list) {
    int p = md.pos_of(c);
    if (with_list) {
      if constexpr (CAN_REMMAX2) {
        std::vector<Index> after;
        for (int q = p + 1; q < n(); ++q) after.push_back((Index)md.cid[md.order[q]]);
        m->remove_maximal_cell((Index)md.cid[c], after);
      }
    } else {
      if constexpr (CAN_REMMAX) {
        if constexpr (RU && IDX != IDEN) m->remove_maximal_cell((Index)p);
        else if constexpr (!RU && IDX == POSI) m->remove_maximal_cell((Index)p);
        else m->remove_maximal_cell((Index)md.cid[c]);
      }
    }
    vf::stats().add(p + 1 == n() ? "remove_max.already_last" : "remove_max.needs_swaps");
    model_remove(c);
  }
  void read_columns() {  // a reader in the middle of a history (triggers the lazy row reordering of RU matrices)
    if constexpr (RU) {
      for (int p = 0; p < n(); ++p) {
        if constexpr (IDX == IDEN) (void)m->get_column((Index)md.cid[md.order[p]]);
        else (void)m->get_column((Index)p);
      }
    }
  }

  // ---- observation -------------------------------------------------------------------------------------------------
  unsigned int content_len() const { return (unsigned int)std::min<long>(4 * (md.maxid + 2) + 8, 4096); }
  template <class Col>
  std::vector<long> rows_of(const Col& col) const {
    std::vector<long> r;
    auto v = col.get_content((int)content_len());
    for (size_t i = 0; i < v.size(); ++i) if (v[i]) r.push_back((long)i);
    return r;
  }
  static std::string lstr(const std::vector<long>& v) { return "{" + vf::join(v) + "}"; }
  static std::vector<long> sym(const std::vector<long>& a, const std::vector<long>& b) {
    std::vector<long> r;
    std::set_symmetric_difference(a.begin(), a.end(), b.begin(), b.end(), std::back_inserter(r));
    return r;
  }

  void observe() {
    if (dead) return;
    try {
      observe_inner();
    } catch (const std::exception& e) {
      dead = true;
      std::string w = e.what();
      if (w.size() > 60) w.resize(60);
      bad("exception_while_reading", std::string("library threw: ") + w);
    }
  }

  void observe_inner() {
    const int N = n();
    Bars want = refbars(U, md.order);
    // shape
    if ((long)m->get_number_of_columns() != N)
      bad("number_of_columns", "got " + std::to_string(m->get_number_of_columns()) + " want " + std::to_string(N));
    int maxdim = -1;
    for (int c : md.order) maxdim = std::max(maxdim, U.dim(c));
    if (m->get_max_dimension() != maxdim)
      bad("max_dimension", "got " + std::to_string(m->get_max_dimension()) + " want " + std::to_string(maxdim));
    // stored barcode
    if constexpr (BAR) {
      Bars got;
      for (auto& b : m->get_current_barcode())
        got.push_back({(int)b.dim, (int)b.birth, b.death == NUL ? -1 : (int)b.death});
      std::sort(got.begin(), got.end());
      if (got != want) bad("barcode", "get_current_barcode " + bars_str(got) + " want " + bars_str(want));
    }
    Bars derived;
    if constexpr (RU) observe_ru(N, derived);
    else observe_chain(N, derived);
    std::sort(derived.begin(), derived.end());
    if (derived != want) bad("pairing_from_columns", "columns encode " + bars_str(derived) + " want " + bars_str(want));
    vf::stats().maxi("cells_max", N);
  }

  // chain matrix: compatible basis.  Every cell owns one chain with that cell as pivot, supported on cells not later
  // than the pivot; unpaired chains are cycles; a paired couple (g,h), g earlier, satisfies boundary(h) = g.
  void observe_chain(int N, Bars& derived) {
    if constexpr (!RU) {
      auto& ch = core();
      std::vector<std::vector<long>> chain(N);     // as sorted positions
      std::vector<long> mat(N), partner(N, -1);
      for (int p = 0; p < N; ++p) {
        int c = md.order[p];
        long id = md.cid[c];
        Index idx;
        if constexpr (IDX == CONT) idx = m->get_column_with_pivot((Index)id);
        else if constexpr (IDX == POSI) idx = (Index)p;
        else idx = (Index)id;
        long pv = m->get_pivot(idx);
        if (pv != id) bad("chain_identity:pivot", "column of position " + std::to_string(p) + " has pivot " +
                                                      std::to_string(pv) + " want " + std::to_string(id));
        if (m->get_column_dimension(idx) != U.dim(c))
          bad("chain_identity:dimension", "position " + std::to_string(p) + " got " +
                                              std::to_string(m->get_column_dimension(idx)));
        if (m->is_zero_column(idx)) bad("chain_identity:zero_column", "position " + std::to_string(p));
        std::vector<long> ids = rows_of(m->get_column(idx));
        bool has_self = false, ok = true;
        for (long r : ids) {
          int cc = md.cell_with_cid(r);
          int q = cc < 0 ? -1 : md.pos_of(cc);
          if (q < 0 || q > p) ok = false;
          else chain[p].push_back(q);
          if (r == id) has_self = true;
        }
        std::sort(chain[p].begin(), chain[p].end());
        if (!ok || !has_self)
          bad("chain_identity:support", "chain of position " + std::to_string(p) + " (id " + std::to_string(id) +
                                            ") has rows " + lstr(ids) + ": must contain its cell and only earlier cells");
        mat[p] = ch.get_column_with_pivot((Index)id);
      }
      for (int p = 0; p < N; ++p) {
        auto& col = ch.get_column((Index)mat[p]);
        if (col.is_paired()) {
          long pm_ = col.get_paired_chain_index();
          for (int q = 0; q < N; ++q) if (mat[q] == pm_) partner[p] = q;
          if (partner[p] < 0) bad("chain_identity:pairing", "position " + std::to_string(p) + " paired with a missing column");
        }
      }
      auto boundary = [&](const std::vector<long>& chn) {
        std::vector<long> r;
        for (long q : chn) {
          std::vector<long> f;
          for (int fc : U.facets[md.order[q]]) f.push_back(md.pos_of(fc));
          std::sort(f.begin(), f.end());
          r = sym(r, f);
        }
        return r;
      };
      for (int p = 0; p < N; ++p) {
        int d = U.dim(md.order[p]);
        if (partner[p] < 0) {
          if (!ch.get_column((Index)mat[p]).is_paired()) {
            derived.push_back({d, p, -1});
            auto bd = boundary(chain[p]);
            if (!bd.empty()) bad("chain_identity:unpaired_not_cycle", "position " + std::to_string(p) + " boundary " + lstr(bd));
          }
          continue;
        }
        int q = (int)partner[p];
        if (partner[q] != p) { bad("chain_identity:pairing", "pairing not symmetric at position " + std::to_string(p)); continue; }
        if (q > p) {
          derived.push_back({d, p, q});
          if (boundary(chain[q]) != chain[p])
            bad("chain_identity:boundary_of_h_is_g", "g=" + std::to_string(p) + " h=" + std::to_string(q) + " boundary(h)=" +
                                                         lstr(boundary(chain[q])) + " g=" + lstr(chain[p]));
        }
      }
    }
  }

  // RU matrix: D = R*U (U stored row-wise: "column" k of the U container lists the columns j with U[k][j] = 1),
  // U unit upper triangular, R reduced, pivots <-> pairs.
  void observe_ru(int N, Bars& derived) {
    if constexpr (RU) {
      auto& ru = core();
      std::vector<std::vector<long>> R(N), Urow(N);
      for (int p = 0; p < N; ++p) {
        int c = md.order[p];
        Index idx = (IDX == IDEN) ? (Index)md.cid[c] : (Index)p;
        std::vector<long> ids = rows_of(m->get_column(idx));
        bool ok = true;
        for (long r : ids) {
          int q = md.pos_with_rid(r);
          if (q < 0) ok = false;
          else R[p].push_back(q);
        }
        std::sort(R[p].begin(), R[p].end());
        if (!ok) bad("ru_identity:unknown_row", "R column " + std::to_string(p) + " rows " + lstr(ids));
        if (m->get_column_dimension(idx) != U.dim(c))
          bad("ru_identity:dimension", "position " + std::to_string(p) + " got " + std::to_string(m->get_column_dimension(idx)));
        if (m->is_zero_column(idx) != R[p].empty() && ok) bad("ru_identity:is_zero_column", "position " + std::to_string(p));
        std::vector<long> u;
        if constexpr (IDX != IDEN) u = rows_of(m->get_column((Index)p, false));
        else u = rows_of(ru.mirrorMatrixU_.get_column((Index)p));
        for (long j : u) {
          int q = (int)j;   // entries of U are column positions
          if (q < 0 || q >= N) { bad("ru_identity:unknown_row_in_U", "U row " + std::to_string(p) + " " + lstr(u)); continue; }
          Urow[p].push_back(q);
        }
        std::sort(Urow[p].begin(), Urow[p].end());
        bool diag = false, lower = false;
        for (long j : Urow[p]) { if (j == p) diag = true; if (j < p) lower = true; }
        if (!diag || lower) bad("ru_identity:U_unit_upper_triangular", "U row " + std::to_string(p) + " = " + lstr(Urow[p]));
      }
      // D = R*U
      for (int j = 0; j < N; ++j) {
        std::vector<long> acc;
        for (int k = 0; k < N; ++k)
          if (std::binary_search(Urow[k].begin(), Urow[k].end(), (long)j)) acc = sym(acc, R[k]);
        std::vector<long> d;
        for (int fc : U.facets[md.order[j]]) d.push_back(md.pos_of(fc));
        std::sort(d.begin(), d.end());
        if (acc != d) bad("ru_identity:D=RU", "column " + std::to_string(j) + " of R*U = " + lstr(acc) + " boundary = " + lstr(d));
      }
      // reduced + pairs
      std::vector<int> killer(N, -1);
      for (int j = 0; j < N; ++j) {
        if (R[j].empty()) continue;
        int low = (int)R[j].back();
        if (killer[low] >= 0) bad("ru_identity:R_reduced", "columns " + std::to_string(killer[low]) + " and " + std::to_string(j) + " share the pivot " + std::to_string(low));
        killer[low] = j;
        Index idx = (IDX == IDEN) ? (Index)md.cid[md.order[j]] : (Index)j;
        long pv = m->get_pivot(idx);
        if (pv != md.rid[low]) bad("ru_identity:get_pivot", "column " + std::to_string(j) + " got " + std::to_string(pv) + " want " + std::to_string(md.rid[low]));
        long cw = m->get_column_with_pivot((Index)md.rid[low]);
        long wantc = (IDX == IDEN) ? md.cid[md.order[j]] : j;
        if (cw != wantc) bad("ru_identity:get_column_with_pivot", "pivot " + std::to_string(md.rid[low]) + " got " + std::to_string(cw) + " want " + std::to_string(wantc));
      }
      for (int p = 0; p < N; ++p) {
        if (!R[p].empty()) continue;
        derived.push_back({U.dim(md.order[p]), p, killer[p]});
      }
    }
  }

  // ---- canonical key (model + implementation-internal state), read without touching the object --------------------
  template <class Cont, class F>
  static void for_sorted(const Cont& c, F&& f) {
    if constexpr (std::is_same_v<Cont, std::vector<typename Cont::value_type>>) {
      for (size_t i = 0; i < c.size(); ++i) f((long)i, c[i]);
    } else {
      std::vector<long> keys;
      for (auto& kv : c) keys.push_back((long)kv.first);
      std::sort(keys.begin(), keys.end());
      for (long k : keys) f(k, c.at((unsigned int)k));
    }
  }
  template <class BarCont, class Dict>
  void dump_bars(Dump& d, const BarCont& bc, const Dict& dict) {
    d.s('B');
    for (auto& b : bc) { d.P(b.dim); d.P(b.birth == NUL ? -1 : (long)b.birth); d.P(b.death == NUL ? -1 : (long)b.death); d.s(';'); }
    d.s('b');
    if constexpr (std::is_same_v<Dict, std::vector<Index>>) {
      for (size_t i = 0; i < dict.size(); ++i) d.P(dict[i]);
    } else {
      std::vector<std::pair<long, long>> v;
      for (auto& kv : dict) {
        long k = 0;
        for (auto it = bc.begin(); it != bc.end(); ++it, ++k) if (it == kv.second) break;
        v.push_back({(long)kv.first, k});
      }
      std::sort(v.begin(), v.end());
      for (auto& x : v) { d.P(x.first); d.P(x.second); }
    }
  }
  template <class Mat>
  void dump_basic(Dump& d, const Mat& B, bool rows_are_ids) {  // Boundary_matrix / Base_matrix with lazy row swaps
    d.s('[');
    for_sorted(B.matrix_, [&](long k, const auto& col) {
      d.P(k);
      d.s(':');
      for (long r : rows_of(col)) { if (rows_are_ids) d.I(r); else d.P(r); }
      d.s(';');
    });
    d.s('n'); d.P(B.nextInsertIndex_);
    d.s('r'); d.P(B.rowSwapped_);
    d.s('i'); for_sorted(B.indexToRow_, [&](long k, long v) { if (rows_are_ids) { d.I(k); d.I(v); } else { d.P(k); d.P(v); } });
    d.s('j'); for_sorted(B.rowToIndex_, [&](long k, long v) { if (rows_are_ids) { d.I(k); d.I(v); } else { d.P(k); d.P(v); } });
    d.s(']');
  }

  // ---- abstract key: semantic content + coarse summaries of the lazy / permutation state ------------------------------
  // (which histories are executed depends on the key, what is reported does not: every executed transition is
  //  compared with the oracle whatever the key)
  template <class Mat>
  void abs_basic(Dump& d, const Mat& B) {
    auto pub = [&](long real) -> long {   // real row -> public row index
      if constexpr (MAP) { auto it = B.rowToIndex_.find((unsigned int)real); return it == B.rowToIndex_.end() ? -7 : (long)it->second; }
      else return real < (long)B.rowToIndex_.size() ? (long)B.rowToIndex_[real] : real;
    };
    d.s('[');
    long cols = 0;
    for_sorted(B.matrix_, [&](long k, const auto& col) {
      ++cols;
      std::vector<long> r;
      for (long x : rows_of(col)) r.push_back(pub(x));
      std::sort(r.begin(), r.end());
      if (r.empty() && k >= (long)B.nextInsertIndex_) return;   // cleared slot of a vector container
      d.P(k); d.s(':');
      for (long x : r) d.I(x);
      d.s(';');
    });
    d.s('n'); d.P(B.nextInsertIndex_);
    if (key_level >= 1) {   // summary of the lazy row permutation: pending flag, anything actually permuted
      long moved = 0;
      for_sorted(B.indexToRow_, [&](long k, long v) { if (k != v) ++moved; });
      for_sorted(B.rowToIndex_, [&](long k, long v) { if (k != v) ++moved; });
      d.s('r'); d.P(B.rowSwapped_); d.P(moved > 0);
    }
    (void)cols;
    d.s(']');
  }
  template <class BarCont, class Dict>
  void abs_bars(Dump& d, const BarCont& bc, const Dict& dict) {
    std::vector<std::array<long, 3>> v;
    for (auto& b : bc) v.push_back({(long)b.dim, b.birth == NUL ? -1 : (long)b.birth, b.death == NUL ? -1 : (long)b.death});
    long displaced = 0;
    auto sorted = v;
    std::sort(sorted.begin(), sorted.end());
    for (size_t i = 0; i < v.size(); ++i) if (v[i] != sorted[i]) ++displaced;
    d.s('B');
    for (auto& b : sorted) { d.P(b[0]); d.P(b[1]); d.P(b[2]); d.s(';'); }
    if (key_level >= 1) d.P(displaced > 0);
    // the dictionary must send every position to the bar that contains it
    long wrong = 0, entries = 0;
    if constexpr (std::is_same_v<Dict, std::vector<Index>>) {
      for (size_t i = 0; i < dict.size(); ++i) {
        ++entries;
        if (dict[i] >= v.size() || (v[dict[i]][1] != (long)i && v[dict[i]][2] != (long)i)) ++wrong;
      }
    } else {
      for (auto& kv : dict) {
        ++entries;
        long b = kv.second->birth == NUL ? -1 : (long)kv.second->birth, e = kv.second->death == NUL ? -1 : (long)kv.second->death;
        if (b != (long)kv.first && e != (long)kv.first) ++wrong;
      }
    }
    d.s('b'); d.P(entries); d.P(wrong);
  }
  std::string key_abs() {
    Dump d;
    if (dead) return "DEAD";
    d.s('O');
    for (int c : md.order) d.P(c);
    d.s('c');
    if (key_level >= 1) {
      if (!RU || IDX == IDEN) for (int c : md.order) d.I(md.cid[c]);
      d.s('r');
      for (long r : md.rid) d.I(r);
    } else {   // semantic level: only whether the identifiers still increase along the filtration
      bool inc = true, eqpos = true;
      if (!RU || IDX == IDEN)
        for (size_t p = 0; p < md.order.size(); ++p) {
          if (p && md.cid[md.order[p - 1]] > md.cid[md.order[p]]) inc = false;
          if (md.cid[md.order[p]] != (long)p) eqpos = false;
        }
      d.P(inc); d.P(eqpos && !explicit_ids);
    }
    d.s('x');
    d.P(md.removed && !explicit_ids && RU && IDX == IDEN);
    auto& co = core();
    const int N = n();
    if constexpr (RU) {
      abs_basic(d, co.reducedMatrixR_);
      abs_basic(d, co.mirrorMatrixU_);
      d.s('p');
      for_sorted(co.pivotToColumnIndex_, [&](long k, long v) { if (v != (long)NUL) { d.I(k); d.P(v); } });
      d.s('e'); d.P(co.nextEventIndex_);
      d.s('q');
      {
        std::vector<std::pair<long, long>> v;
        for (auto& kv : co._positionToRowIdx()) v.push_back({(long)kv.first, (long)kv.second});
        std::sort(v.begin(), v.end());
        for (auto& x : v) { d.P(x.first); d.I(x.second); }
      }
      if constexpr (BAR) {
        abs_bars(d, co.barcode_, co.indexToBar_);
        d.s('t');
        std::vector<std::pair<long, long>> v;
        for (auto& kv : co.idToPosition_) v.push_back({(long)kv.first, (long)kv.second});
        std::sort(v.begin(), v.end());
        for (auto& x : v) { d.I(x.first); d.P(x.second); }
      }
      d.s('D'); d.P(co.reducedMatrixR_.maxDim_);
      for (auto x : co.reducedMatrixR_.dimensions_) d.P(x);
      if constexpr (IDX == IDEN) {
        d.s('o'); d.P(m->matrix_.nextIndex_);
        if (key_level >= 1) {
          for_sorted(*m->matrix_.idToIndex_, [&](long k, long v) { if (v != (long)NUL) { d.I(k); d.P(v); } });
        } else {
          long cnt = 0, wrong = 0;
          for_sorted(*m->matrix_.idToIndex_, [&](long k, long v) {
            if (v == (long)NUL) return;
            ++cnt;
            int c = md.cell_with_cid(k);
            if (c < 0 || md.pos_of(c) != v) ++wrong;
          });
          d.P(cnt); d.P(wrong);
        }
      }
    } else {
      // chains, pivots and pairing expressed in positions; which container slot holds which chain is summarised
      std::vector<long> mat(N, -1);
      auto slot_of = [&](long id) -> long {
        if constexpr (MAP) { auto it = co.pivotToColumnIndex_.find((unsigned int)id); return it == co.pivotToColumnIndex_.end() ? -1 : (long)it->second; }
        else return id < (long)co.pivotToColumnIndex_.size() ? (long)co.pivotToColumnIndex_[id] : -1;
      };
      auto has_slot = [&](long sidx) {
        if constexpr (MAP) return co.matrix_.find((unsigned int)sidx) != co.matrix_.end();
        else return sidx >= 0 && sidx < (long)co.matrix_.size();
      };
      auto pos_of_id = [&](long id) -> long { int c = md.cell_with_cid(id); return c < 0 ? -5 : md.pos_of(c); };
      d.s('[');
      for (int p = 0; p < N; ++p) {
        long id = md.cid[md.order[p]];
        mat[p] = slot_of(id);
        if (mat[p] == (long)NUL || !has_slot(mat[p])) { d.s('?'); d.s(';'); continue; }
        auto& col = co.get_column((Index)mat[p]);
        std::vector<long> r;
        for (long x : rows_of(col)) r.push_back(pos_of_id(x));
        std::sort(r.begin(), r.end());
        for (long x : r) d.P(x);
        d.s('/'); d.P(pos_of_id(col.get_pivot()));
        long pc = col.get_paired_chain_index(), pp = -1;
        if (pc != (long)NUL) pp = has_slot(pc) ? pos_of_id(co.get_column((Index)pc).get_pivot()) : -6;
        d.P(pp); d.P(col.get_dimension());
        d.s(';');
      }
      d.s(']');
      long slots = 0, entries = 0, inversions = 0;
      for_sorted(co.matrix_, [&](long, const auto&) { ++slots; });
      for_sorted(co.pivotToColumnIndex_, [&](long, long v) { if (v != (long)NUL) ++entries; });
      for (int p = 0; p < N; ++p) for (int q = p + 1; q < N; ++q) if (mat[p] > mat[q]) ++inversions;
      d.s('s'); d.P(slots); d.P(entries);
      if (key_level >= 1) d.P(inversions > 0);
      if constexpr (BAR) {
        abs_bars(d, co.barcode_, co.indexToBar_);
        d.s('P'); d.P(co.nextPosition_);
        long wrong = 0, cnt = 0;
        for_sorted(co.pivotToPosition_, [&](long k, long v) { if (v != (long)NUL) { ++cnt; if (pos_of_id(k) != v) ++wrong; } });
        d.P(cnt); d.P(wrong);
      }
      d.s('D'); d.P(co.maxDim_);
      if constexpr (MAP) for (auto x : co.dimensions_) d.P(x);
      if constexpr (IDX == POSI) {
        d.s('o'); d.P(m->matrix_.nextPosition_);
        long wrong = 0;
        for (int p = 0; p < N && p < (int)m->matrix_.positionToIndex_.size(); ++p) if ((long)m->matrix_.positionToIndex_[p] != mat[p]) ++wrong;
        d.P(wrong);
      }
    }
    return d.str(true, true);
  }

  std::string key() {
    Dump d;
    if (dead) return "DEAD";
    d.s('O');
    for (int c : md.order) d.P(c);
    d.s('c');
    if (!RU || IDX == IDEN) for (int c : md.order) d.I(md.cid[c]);
    d.s('r');
    for (long r : md.rid) d.I(r);
    d.s('x');
    d.P(md.removed && !explicit_ids && RU && IDX == IDEN);   // the only model bit an enabledness rule reads besides ids
    auto& co = core();
    if constexpr (RU) {
      dump_basic(d, co.reducedMatrixR_, explicit_ids);
      dump_basic(d, co.mirrorMatrixU_, explicit_ids);
      d.s('p');
      for_sorted(co.pivotToColumnIndex_, [&](long k, long v) { if (explicit_ids) d.I(k); else d.P(k); d.P(v == (long)NUL ? -1 : v); });
      d.s('e'); d.P(co.nextEventIndex_);
      d.s('q');
      {
        std::vector<std::pair<long, long>> v;
        for (auto& kv : co._positionToRowIdx()) v.push_back({(long)kv.first, (long)kv.second});
        std::sort(v.begin(), v.end());
        for (auto& x : v) { d.P(x.first); d.I(x.second); }
      }
      if constexpr (BAR) {
        dump_bars(d, co.barcode_, co.indexToBar_);
        d.s('t');
        std::vector<std::pair<long, long>> v;
        for (auto& kv : co.idToPosition_) v.push_back({(long)kv.first, (long)kv.second});
        std::sort(v.begin(), v.end());
        for (auto& x : v) { d.I(x.first); d.P(x.second); }
      }
      d.s('D'); d.P(co.reducedMatrixR_.maxDim_);
      for (auto x : co.reducedMatrixR_.dimensions_) d.P(x);
      if constexpr (IDX == IDEN) {
        d.s('o'); d.P(m->matrix_.nextIndex_);
        for_sorted(*m->matrix_.idToIndex_, [&](long k, long v) { d.I(k); d.P(v == (long)NUL ? -1 : v); });
      }
    } else {
      d.s('[');
      for_sorted(co.matrix_, [&](long k, const auto& col) {
        d.Mx(k); d.s(':');
        for (long r : rows_of(col)) d.I(r);
        using ColT = std::decay_t<decltype(col)>;
        d.s('/'); d.I(const_cast<ColT&>(col).get_pivot()); d.Mx(col.get_paired_chain_index()); d.P(col.get_dimension());
        d.s(';');
      });
      d.s(']');
      d.s('p');
      for_sorted(co.pivotToColumnIndex_, [&](long k, long v) { if (v != (long)NUL) { d.I(k); d.Mx(v); } });
      d.s('n'); d.Mx(co.nextIndex_);
      if constexpr (BAR) {
        dump_bars(d, co.barcode_, co.indexToBar_);
        d.s('P'); d.P(co.nextPosition_);
        for_sorted(co.pivotToPosition_, [&](long k, long v) { if (v != (long)NUL) { d.I(k); d.P(v); } });
      }
      d.s('D'); d.P(co.maxDim_);
      if constexpr (MAP) for (auto x : co.dimensions_) d.P(x);
      if constexpr (IDX == POSI) {
        d.s('o'); d.P(m->matrix_.nextPosition_); d.Mx(m->matrix_.nextIndex_);
        for (size_t i = 0; i < m->matrix_.positionToIndex_.size() && i < (size_t)m->matrix_.nextPosition_; ++i)
          d.Mx(m->matrix_.positionToIndex_[i]);
      }
    }
    return d.str(true, true);
  }
};

// ---------------------------------------------------------------------------------------------------------------------
// driver for the explorer
// ---------------------------------------------------------------------------------------------------------------------
template <class C>
struct Driver {
  Universe U;
  bool explicit_ids = false;
  int max_cells = 100;
  int key_level = 1;            // --key semantic|summary|full
  std::vector<int> prefix;      // --pre full: every history starts with the insertion of all cells (canonical order)
  bool probe_crashes = false;   // --probe 1: find process-killing transitions in forked probes and explore past them

  std::string describe(const std::vector<int>& hist) const {
    std::ostringstream o;
    o << "cfg=" << C::name() << ";uni=" << U.name << ";ids=" << (explicit_ids ? "explicit" : "default")
      << ";pre=" << (prefix.empty() ? "none" : "full") << ";ops=" << vf::join(hist) << ";text=";
    if (!prefix.empty()) o << "[all cells inserted] ";
    for (int op : hist) {
      OpKind k = kind_of(op);
      o << op_name[k];
      if (k == INS || k == REMMAX || k == REMMAX2) o << ref::str(U.cells[arg_of(op)]);
      else if (k == SWAP || k == SWAPZ) o << "(" << arg_of(op) << ")";
      o << " ";
    }
    return o.str();
  }
  // one history, executed and observed without reporting (used inside the forked probes)
  void set_prefix_full() {
    prefix.clear();
    for (size_t c = 0; c < U.cells.size(); ++c) prefix.push_back(enc(INS, (int)c));   // cells are sorted by dimension
  }
  void run_quiet(const std::vector<int>& hist) const {
    Exec<C> e(U, explicit_ids);
    for (int op : prefix) e.apply(op, false);
    for (int op : hist) e.apply(op, true);
    (void)e.key();
    e.observe();
  }
  // class of a transition that killed the forked probe: option-set family + the two last operations
  std::string crash_class(const std::vector<int>& hist_with_op) const {
    std::string c = "C06:crash:" + C::family() + (explicit_ids ? "+ids" : "") + ":after_";
    size_t n = hist_with_op.size();
    if (n >= 2) c += std::string(op_name[kind_of(hist_with_op[n - 2])]) + "_then_";
    if (n >= 1) c += op_name[kind_of(hist_with_op[n - 1])];
    return c + ":died";
  }
  // does the last operation of p match a footprint in the state reached by the operations before it?
  bool last_op_has_fatal_footprint(const std::vector<int>& p) const {
    if (p.empty()) return false;
    bool was = g_silent;
    g_silent = true;
    long before = g_bad;
    Exec<C> e(U, explicit_ids);
    for (int op : prefix) e.apply(op, false);
    for (size_t i = 0; i + 1 < p.size(); ++i) e.apply(p[i], false);
    bool r = e.fatal_footprint(p.back());
    g_bad = before;
    g_silent = was;
    return r;
  }
  std::vector<int> enabled(const std::vector<int>& hist) const {
    vf::set_case(describe(hist) + "[computing the enabled operations]");
    g_silent = true;
    long before = g_bad;
    std::vector<int> r;
    std::vector<char> risky;
    {
      Exec<C> e(U, explicit_ids);
      for (int op : prefix) e.apply(op, false);
      for (size_t i = 0; i < hist.size(); ++i) e.apply(hist[i], i + 1 == hist.size());   // same checks as run()
      e.observe();                      // a state that already disagrees with the oracle is not expanded
      if (g_bad == before && !e.dead) {
        r = e.enabled_ops();
        if ((int)e.md.order.size() >= max_cells) {
          std::vector<int> f;
          for (int op : r) if (kind_of(op) != INS) f.push_back(op);
          r.swap(f);
        }
        for (int op : r) risky.push_back(probe_crashes || e.fatal_footprint(op));
      }
    }
    g_silent = false;
    vf::end_case();
    // transitions matching a footprint of a recorded finding (all transitions with --probe 1) are executed in a forked
    // probe first; those that kill the process (sanitizer report, signal, hang) are reported from here with a class
    // of their own and are not handed to the explorer
    std::vector<size_t> sel;
    for (size_t i = 0; i < r.size(); ++i) if (risky[i]) sel.push_back(i);
    if (sel.empty()) return r;
    std::vector<std::string> errs;
    std::vector<int> h = hist;
    h.push_back(0);
    std::string res = probe(sel.size(), [&](size_t j) { std::vector<int> hh = hist; hh.push_back(r[sel[j]]); run_quiet(hh); }, errs);
    std::vector<char> died(r.size(), 0);
    size_t ei = 0;
    for (size_t j = 0; j < sel.size(); ++j) {
      vf::stats().add("transitions_probed_in_a_fork");
      if (j < res.size() && res[j] == '!') {
        died[sel[j]] = 1;
        h.back() = r[sel[j]];
        vf::set_case(describe(h));
        vf::mismatch(crash_class(h), C::name() + " " + (ei < errs.size() ? errs[ei] : std::string("process died")));
        vf::end_case();
        vf::stats().add("transitions_that_killed_the_process");
        ++ei;
      }
    }
    std::vector<int> ok;
    for (size_t i = 0; i < r.size(); ++i) if (!died[i]) ok.push_back(r[i]);
    return ok;
  }
  std::string run(const std::vector<int>& hist) const {
    long before = g_bad;
    Exec<C> e(U, explicit_ids);
    for (int op : prefix) e.apply(op, false);
    for (size_t i = 0; i < hist.size(); ++i) e.apply(hist[i], i + 1 == hist.size());
    e.key_level = key_level;
    std::string k = key_level >= 2 ? e.key() : e.key_abs();   // before any read through the public interface
    if (getenv("C06_DUMPKEYS")) fprintf(stderr, "KEY %s\n", k.c_str());
    e.observe();
    vf::stats().add("observations");
    if (!hist.empty()) vf::stats().add(std::string("op.") + op_name[kind_of(hist.back())]);
    if (g_bad != before || e.dead) {
      vf::stats().add("states_not_expanded_after_mismatch");
      return "BAD|" + vf::join(hist);
    }
    return k;
  }
};

template <class C>
int run_cfg(const vf::Args& a, double t0) {
  Driver<C> d;
  std::string uni = a.get("uni", "tri");
  d.explicit_ids = a.get("ids", "default") == "explicit";
  d.max_cells = (int)a.geti("maxcells", 100);
  d.probe_crashes = a.geti("probe", 0) != 0;
  {
    std::string kl = a.get("key", "summary");
    d.key_level = kl == "semantic" ? 0 : (kl == "full" ? 2 : 1);
  }
  if (!a.replay.empty()) {
    auto kv = vf::parse_kv(a.replay);
    if (kv["cfg"] != C::name()) return -1;
    d.U = Universe::make(kv["uni"]);
    d.explicit_ids = kv["ids"] == "explicit";
    if (kv["pre"] == "full") d.set_prefix_full();
    std::vector<int> h = vf::parse_ints(kv["ops"]);
    for (size_t n = 0; n <= h.size(); ++n) {   // every prefix: the first step that goes wrong is shown
      std::vector<int> p(h.begin(), h.begin() + n);
      vf::set_case(d.describe(p));
      if (d.probe_crashes || d.last_op_has_fatal_footprint(p)) {
        std::vector<std::string> errs;
        std::string res = probe(1, [&](size_t) { d.run_quiet(p); }, errs);
        if (res != "k") {
          vf::mismatch(d.crash_class(p), C::name() + " " + (errs.empty() ? std::string("process died") : errs[0]));
          break;
        }
      }
      long before = g_bad;
      d.run(p);
      if (g_bad != before) break;
      if (n == h.size()) (void)d.enabled(p);   // the enabledness computation reads the object too
    }
    vf::end_case();
    return 0;
  }
  d.U = Universe::make(uni);
  if (a.get("pre", "none") == "full") d.set_prefix_full();
  vf::ExploreCfg cfg;
  cfg.max_depth = (int)a.geti("depth", 1000);
  cfg.workers = (int)a.geti("workers", 1);
  cfg.deadline_s = t0 + (double)a.geti("budget", 100);
  cfg.validate_per_level = (int)a.geti("validate", 0);
  cfg.scratch = "build/scratch";
  vf::ExploreResult r = vf::explore(d, cfg);
  vf::Stats& s = vf::stats();
  s.add("ev.states", r.states);
  s.add("ev.transitions", r.transitions);
  s.add("ev.traces", r.transitions + 1 + r.validated);
  s.add("ev.evaluations", r.transitions + 1 + r.validated);
  s.add("ev.nontrivial", r.states);
  const bool depth_bounded = a.kv.count("depth") != 0;   // a registered depth bound that was completed is a complete bound
  const bool complete = !r.failed && !r.deadline_hit && (r.closed || (depth_bounded && r.completed_depth >= cfg.max_depth));
  if (!complete) s.add("ev.incomplete", 1);
  std::string tag = C::name() + "." + uni + (d.explicit_ids ? ".explicit" : ".default") + (d.prefix.empty() ? "" : ".full") +
                    (d.key_level == 0 ? ".semantic" : (d.key_level == 1 ? ".summary" : ".fullkey"));
  s.add("closed." + tag, r.closed ? 1 : 0);
  s.add("states." + tag, r.states);
  s.maxi("depth." + tag, r.completed_depth);
  return r.failed ? 3 : 0;
}

// ---------------------------------------------------------------------------------------------------------------------
// configuration groups (one per binary)
// ---------------------------------------------------------------------------------------------------------------------
#ifndef VF_CFG
#define VF_CFG 0
#endif
constexpr Column_types ISET = Column_types::INTRUSIVE_SET;

template <class... Cs>
struct Group {
  static int dispatch(const vf::Args& a, double t0, const std::string& want) {
    int rc = -1;
    (void)std::initializer_list<int>{(((want == Cs::name()) ? (rc = run_cfg<Cs>(a, t0)) : 0), 0)...};
    return rc;
  }
  static void list() { (void)std::initializer_list<int>{((void)printf("%s\n", Cs::name().c_str()), 0)...}; }
};

#if VF_CFG == 0   // RU, container (= position) indexing
using G = Group<Cfg<true, CONT, true, true, ISET, 0>, Cfg<true, CONT, true, false, ISET, 0>,
                Cfg<true, CONT, false, true, ISET, 0>, Cfg<true, CONT, false, false, ISET, 0>>;
#elif VF_CFG == 1  // RU, identifier indexing
using G = Group<Cfg<true, IDEN, true, true, ISET, 0>, Cfg<true, IDEN, true, false, ISET, 0>,
                Cfg<true, IDEN, false, true, ISET, 0>, Cfg<true, IDEN, false, false, ISET, 0>>;
#elif VF_CFG == 2  // chain, container indexing
using G = Group<Cfg<false, CONT, true, true, ISET, 0>, Cfg<false, CONT, true, false, ISET, 0>,
                Cfg<false, CONT, false, true, ISET, 0>, Cfg<false, CONT, false, false, ISET, 0>>;
#elif VF_CFG == 3  // chain, position indexing
using G = Group<Cfg<false, POSI, true, true, ISET, 0>, Cfg<false, POSI, true, false, ISET, 0>,
                Cfg<false, POSI, false, true, ISET, 0>, Cfg<false, POSI, false, false, ISET, 0>>;
#elif VF_CFG == 4  // chain, identifier indexing
using G = Group<Cfg<false, IDEN, true, true, ISET, 0>, Cfg<false, IDEN, true, false, ISET, 0>,
                Cfg<false, IDEN, false, true, ISET, 0>, Cfg<false, IDEN, false, false, ISET, 0>>;
#elif VF_CFG == 5  // RU, other column types (1/2)
using G = Group<Cfg<true, CONT, true, true, Column_types::LIST, 0>, Cfg<true, CONT, true, true, Column_types::SET, 0>,
                Cfg<true, CONT, true, true, Column_types::HEAP, 0>, Cfg<true, CONT, true, true, Column_types::VECTOR, 0>>;
#elif VF_CFG == 6  // RU, other column types (2/2)
using G = Group<Cfg<true, CONT, true, true, Column_types::NAIVE_VECTOR, 0>, Cfg<true, CONT, true, true, Column_types::SMALL_VECTOR, 0>,
                Cfg<true, CONT, true, true, Column_types::UNORDERED_SET, 0>, Cfg<true, CONT, true, true, Column_types::INTRUSIVE_LIST, 0>>;
#elif VF_CFG == 7  // chain, other column types (1/2)
using G = Group<Cfg<false, CONT, true, true, Column_types::LIST, 0>, Cfg<false, CONT, true, true, Column_types::SET, 0>,
                Cfg<false, CONT, true, true, Column_types::HEAP, 0>, Cfg<false, CONT, true, true, Column_types::VECTOR, 0>>;
#elif VF_CFG == 8  // chain, other column types (2/2)
using G = Group<Cfg<false, CONT, true, true, Column_types::NAIVE_VECTOR, 0>, Cfg<false, CONT, true, true, Column_types::SMALL_VECTOR, 0>,
                Cfg<false, CONT, true, true, Column_types::UNORDERED_SET, 0>, Cfg<false, CONT, true, true, Column_types::INTRUSIVE_LIST, 0>>;
#elif VF_CFG == 9  // row access variants
using G = Group<Cfg<true, CONT, true, true, ISET, 1>, Cfg<true, CONT, true, false, ISET, 2>,
                Cfg<false, CONT, true, true, ISET, 2>, Cfg<false, POSI, false, true, Column_types::INTRUSIVE_LIST, 2>>;
#endif

int main(int argc, char** argv) {
  vf::Args a = vf::parse_args(argc, argv);
  vf::install_handlers();
  double t0 = vf::now_s();
  if (a.get("list", "") == "1") { G::list(); return 0; }
  std::string want = a.get("cfg", "");
  if (!a.replay.empty()) want = vf::parse_kv(a.replay)["cfg"];
  int rc = G::dispatch(a, t0, want);
  if (rc == -1) { fprintf(stderr, "configuration %s is not in this binary\n", want.c_str()); return 2; }
  vf::finish();
  return rc;
}
